// Package tr: trace writer, PRNG and string escaping shared by all harness sub-commands.
package tr

import (
	"bufio"
	"encoding/hex"
	"fmt"
	"io"
	"os"
	"sort"
	"strings"
)

// Rng is xorshift64* (the same generator as DV.genBytes in the Lean driver).
type Rng struct{ x uint64 }

func NewRng(seed uint64) *Rng {
	if seed == 0 {
		seed = 0x9E3779B97F4A7C15
	}
	return &Rng{x: seed}
}

func (r *Rng) next() uint64 {
	x := r.x
	x ^= x >> 12
	x ^= x << 25
	x ^= x >> 27
	r.x = x
	return x * 0x2545F4914F6CDD1D
}

func (r *Rng) Uint64() uint64 { return r.next() }

// Intn returns a value in [0,n).
func (r *Rng) Intn(n int) int {
	if n <= 0 {
		return 0
	}
	return int((r.next() >> 11) % uint64(n))
}

func (r *Rng) Bool() bool { return r.Intn(2) == 1 }

// Pick returns one of the given ints.
func (r *Rng) Pick(xs ...int) int { return xs[r.Intn(len(xs))] }

// PickS returns one of the given strings.
func (r *Rng) PickS(xs ...string) string { return xs[r.Intn(len(xs))] }

// Perm returns a permutation of 0..n-1.
func (r *Rng) Perm(n int) []int {
	p := make([]int, n)
	for i := range p {
		p[i] = i
	}
	for i := n - 1; i > 0; i-- {
		j := r.Intn(i + 1)
		p[i], p[j] = p[j], p[i]
	}
	return p
}

// GenBytes expands `gen:<seed>:<len>` exactly like the Lean driver.
func GenBytes(seed uint64, n int) []byte {
	r := NewRng(seed)
	out := make([]byte, n)
	for i := range out {
		out[i] = byte(r.next() >> 56)
	}
	return out
}

// Esc percent-escapes a string so that it contains no space, '=', ',' or '%'.
func Esc(s string) string {
	var b strings.Builder
	for i := 0; i < len(s); i++ {
		c := s[i]
		switch {
		case c >= 'a' && c <= 'z', c >= 'A' && c <= 'Z', c >= '0' && c <= '9',
			c == '-', c == '_', c == '.', c == '/', c == ':', c == '@', c == '+', c == '~':
			b.WriteByte(c)
		default:
			fmt.Fprintf(&b, "%%%02x", c)
		}
	}
	return b.String()
}

func Hex(b []byte) string { return hex.EncodeToString(b) }

// W writes a trace: one line per operation, `<op> => <result>`.
type W struct {
	w      *bufio.Writer
	f      io.Closer
	Cases  int
	Ops    int
	Stats  map[string]int
	sample []string
	cur    []string
}

func NewW(path string) (*W, error) {
	var out io.Writer
	var c io.Closer
	if path == "" || path == "-" {
		out = os.Stdout
	} else {
		f, err := os.Create(path)
		if err != nil {
			return nil, err
		}
		out, c = f, f
	}
	return &W{w: bufio.NewWriterSize(out, 1<<20), f: c, Stats: map[string]int{}}, nil
}

func (t *W) line(s string) {
	t.w.WriteString(s)
	t.w.WriteByte('\n')
	if len(t.sample) < 12 {
		t.cur = append(t.cur, s)
	}
}

// Case starts a case.
func (t *W) Case(format string, a ...interface{}) {
	t.Cases++
	t.cur = nil
	t.line(fmt.Sprintf("case %d ", t.Cases) + fmt.Sprintf(format, a...))
}

// Op writes one operation with the implementation's result.
func (t *W) Op(op string, result string) {
	t.Ops++
	t.line(op + " => " + result)
}

// Note writes an input-only line (no result).
func (t *W) Note(op string) { t.line(op) }

func (t *W) End() {
	t.line("end")
	if len(t.sample) < 12 && len(t.cur) > 0 {
		t.sample = append(t.sample, strings.Join(t.cur, " | "))
	}
}

// Raw writes a line verbatim (protocol markers of child processes).
func (t *W) Raw(s string) {
	t.w.WriteString(s)
	t.w.WriteByte('\n')
}

// Flush flushes the underlying writer.
func (t *W) Flush() { _ = t.w.Flush() }

// ResetStats clears the distribution counters.
func (t *W) ResetStats() { t.Stats = map[string]int{} }

// Forward writes a trace line produced by a child process, keeping the counters right.
func (t *W) Forward(s string) {
	switch {
	case strings.HasPrefix(s, "case "):
		t.Cases++
		t.cur = nil
		// renumber: case numbers are assigned by the parent
		rest := s[5:]
		if i := strings.Index(rest, " "); i >= 0 {
			rest = rest[i+1:]
		} else {
			rest = ""
		}
		t.line(fmt.Sprintf("case %d %s", t.Cases, rest))
		return
	case s == "end":
		t.End()
		return
	case strings.Contains(s, " => "):
		t.Ops++
	}
	t.line(s)
}

// Count increments a distribution counter reported in the evidence.
func (t *W) Count(key string) { t.Stats[key]++ }

func (t *W) Close() error {
	if err := t.w.Flush(); err != nil {
		return err
	}
	if t.f != nil {
		return t.f.Close()
	}
	return nil
}

// StatsLines renders the distribution counters, sorted.
func (t *W) StatsLines() []string {
	keys := make([]string, 0, len(t.Stats))
	for k := range t.Stats {
		keys = append(keys, k)
	}
	sort.Strings(keys)
	out := make([]string, 0, len(keys))
	for _, k := range keys {
		out = append(out, fmt.Sprintf("%s=%d", k, t.Stats[k]))
	}
	return out
}
