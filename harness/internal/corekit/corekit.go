// Package corekit: helpers shared by the harness sub-commands that drive pkg/core on the
// reference object store (memstore): context stores, repos, uploads, downloads, error classes.
package corekit

import (
	"context"
	"errors"
	"fmt"
	"sort"
	"strings"

	"go.uber.org/zap"

	"dvh/internal/memstore"

	context2 "github.com/oneconcern/datamon/pkg/context"
	"github.com/oneconcern/datamon/pkg/core"
	"github.com/oneconcern/datamon/pkg/model"
	"github.com/oneconcern/datamon/pkg/storage"
	storagestatus "github.com/oneconcern/datamon/pkg/storage/status"
)

// Env is one datamon context on five in-memory stores.
type Env struct {
	Blob, Meta, VMeta, Wal, ReadLog *memstore.Store
	Stores                          context2.Stores
}

// NewEnv creates empty stores. All stores share nothing (each has its own logical clock).
func NewEnv() *Env {
	e := &Env{
		Blob: memstore.New("blob"), Meta: memstore.New("meta"), VMeta: memstore.New("vmeta"),
		Wal: memstore.New("wal"), ReadLog: memstore.New("readlog"),
	}
	e.Stores = context2.NewStores(e.Wal, e.ReadLog, e.Blob, e.Meta, e.VMeta)
	return e
}

// WithStores builds context stores from arbitrary (e.g. fault-injecting) stores.
func WithStores(wal, readlog, blob, meta, vmeta storage.Store) context2.Stores {
	return context2.NewStores(wal, readlog, blob, meta, vmeta)
}

// Nop is the logger handed to every datamon call.
var Nop = zap.NewNop()

// CreateRepo creates a repository descriptor.
func (e *Env) CreateRepo(name string) error {
	return Recover(func() error {
		return core.CreateRepo(model.RepoDescriptor{
			Name: name, Description: "verif " + name,
			Contributor: model.Contributor{Name: "verif", Email: "verif@example.com"},
		}, e.Stores)
	})
}

// NewBundle returns a bundle bound to this context. leaf = 0 keeps the default leaf size.
func NewBundle(stores context2.Stores, repo string, consumable storage.Store, leaf uint32, id string, opts ...core.BundleOption) *core.Bundle {
	bd := model.NewBundleDescriptor(model.Message("verif"))
	if leaf != 0 {
		bd.LeafSize = leaf
	}
	all := []core.BundleOption{core.Repo(repo), core.ContextStores(stores), core.Logger(Nop), core.BundleDescriptor(bd)}
	if consumable != nil {
		all = append(all, core.ConsumableStore(consumable))
	}
	if id != "" {
		all = append(all, core.BundleID(id))
	}
	all = append(all, opts...)
	return core.NewBundle(all...)
}

// TreeStore returns a consumable memstore holding the given files.
func TreeStore(files map[string][]byte) *memstore.Store {
	s := memstore.New("tree")
	keys := make([]string, 0, len(files))
	for k := range files {
		keys = append(keys, k)
	}
	sort.Strings(keys)
	for _, k := range keys {
		s.SetRaw(k, files[k])
	}
	return s
}

// UploadTree uploads the files as a new bundle and returns its id.
func (e *Env) UploadTree(repo string, files map[string][]byte, leaf uint32, opts ...core.BundleOption) (string, error) {
	b := NewBundle(e.Stores, repo, TreeStore(files), leaf, "", opts...)
	err := Recover(func() error { return core.Upload(context.Background(), b) })
	return b.BundleID, err
}

// Download publishes a bundle into a fresh memstore and returns its data files (the .datamon
// metadata copies are returned separately).
func Download(stores context2.Stores, repo, bundleID string, opts ...core.BundleOption) (files map[string][]byte, meta map[string][]byte, err error) {
	dst := memstore.New("dest")
	b := NewBundle(stores, repo, dst, 0, bundleID, opts...)
	err = Recover(func() error { return core.Publish(context.Background(), b) })
	files, meta = SplitMeta(dst.Snapshot())
	return files, meta, err
}

// SplitMeta separates data files from the .datamon/ metadata written by a download.
func SplitMeta(all map[string][]byte) (files, meta map[string][]byte) {
	files, meta = map[string][]byte{}, map[string][]byte{}
	for k, v := range all {
		if strings.HasPrefix(k, ".datamon/") {
			meta[k] = v
		} else {
			files[k] = v
		}
	}
	return
}

// Recover runs f and turns a panic into an error whose text starts with "panic:".
func Recover(f func() error) (err error) {
	defer func() {
		if r := recover(); r != nil {
			err = fmt.Errorf("panic: %v", r)
		}
	}()
	return f()
}

// ErrClass maps an error to the small enum used in traces.
func ErrClass(err error) string {
	switch {
	case err == nil:
		return "ok"
	case strings.HasPrefix(err.Error(), "panic:"):
		return "panic"
	case errors.Is(err, storagestatus.ErrNotExists), strings.Contains(err.Error(), "doesn't exist"), strings.Contains(err.Error(), "not found"), strings.Contains(err.Error(), "not exist"):
		return "notfound"
	case errors.Is(err, storagestatus.ErrExists), strings.Contains(err.Error(), "exists already"), strings.Contains(err.Error(), "already exists"):
		return "exists"
	default:
		return "err"
	}
}

// SortedNames returns the keys of a file map, sorted.
func SortedNames(m map[string][]byte) []string {
	ks := make([]string, 0, len(m))
	for k := range m {
		ks = append(ks, k)
	}
	sort.Strings(ks)
	return ks
}

// DownloadPer is Download with a chosen number of entries per index file (bundles uploaded
// through core.VerifUpload with that number).
func DownloadPer(stores context2.Stores, repo, bundleID string, perFile uint, opts ...core.BundleOption) (files map[string][]byte, meta map[string][]byte, err error) {
	dst := memstore.New("dest")
	b := NewBundle(stores, repo, dst, 0, bundleID, opts...)
	err = Recover(func() error {
		return core.VerifPublish(context.Background(), b, perFile, func(string) (bool, error) { return true, nil })
	})
	files, meta = SplitMeta(dst.Snapshot())
	return files, meta, err
}
