// Package c09store: a store wrapper that parks every Put of one actor at a gate until the
// scheduler of the harness lets it through. Each concurrent creator gets its own Gate around the
// SAME underlying store, so the harness decides the order in which the creators' store calls
// reach the store (C09: concurrent CreateRepo under chosen interleavings).
package c09store

import (
	"context"
	"io"

	"github.com/oneconcern/datamon/pkg/storage"
)

// Gate wraps a store; Put / PutCRC wait for Open to be closed and report on Done afterwards.
type Gate struct {
	storage.Store
	Open chan struct{} // closed by the scheduler to let this actor's Put proceed
	Done chan struct{} // receives one value after each Put has returned from the store
	Puts int
}

// New returns a gate around s.
func New(s storage.Store) *Gate {
	return &Gate{Store: s, Open: make(chan struct{}), Done: make(chan struct{}, 16)}
}

func (g *Gate) Put(ctx context.Context, key string, r io.Reader, noOverwrite bool) error {
	<-g.Open
	err := g.Store.Put(ctx, key, r, noOverwrite)
	g.Puts++
	g.Done <- struct{}{}
	return err
}

func (g *Gate) String() string { return "gate://" + g.Store.String() }
