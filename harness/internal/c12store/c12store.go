// Package c12store is the scheduler store of the C12 harness (diamond commit protocol).
//
// Every actor (one API call of pkg/core running in its own goroutine) gets its OWN wrapper
// instances around the shared memstores; the wrappers share one Sched. In gated mode every store
// call of an actor blocks until the harness releases it, so the harness decides the interleaving
// at store-call granularity; the calls that were executed form one global, totally ordered log
// (the linearisation the Lean model replays). Crash mode: every pending and every further call of
// an actor fails with ErrCrashed and reaches no store. Free mode: nothing blocks, the calls of
// truly parallel goroutines are serialised only for the duration of the store call itself, so the
// log is still a linearisation.
package c12store

import (
	"bytes"
	"context"
	"errors"
	"fmt"
	"io"
	"sync"
	"time"

	"github.com/oneconcern/datamon/pkg/storage"
	"github.com/oneconcern/datamon/pkg/storage/status"
)

// ErrCrashed is returned by every store call of a crashed actor.
var ErrCrashed = errors.New("c12store: actor crashed")

// Call is one store call of one actor.
type Call struct {
	Seq   int    // position in the global log (set when executed)
	Actor int    // actor index
	Store string // vmeta | meta | blob | wal | readlog
	Op    string // has get getattr getat touch put putnx delete clear keys keysprefix
	Key   string // key (prefix for keysprefix)
	Res   string // ok | notfound | exists | true | false | err
	Keys  []string
	grant chan bool
	done  bool
}

// Sched coordinates all wrapper stores of one case.
type Sched struct {
	mu       sync.Mutex
	cond     *sync.Cond
	exec     sync.Mutex // held while a call touches the underlying store and is logged
	free     bool
	pending  map[int][]*Call
	crashed  map[int]bool
	finished map[int]bool
	log      []*Call
	late     int // calls issued by an actor after its API call returned

	// OnExec, when set, is called right after a call has been executed and logged, while the
	// store is still locked for other calls (free mode: crash an actor exactly after one of its calls).
	OnExec func(c *Call)
	// Jitter, when set, is called before every call in free mode (perturbs the goroutine schedule).
	Jitter func(actor int)
}

// NewSched returns a gated scheduler (free = false) or a free-running one.
func NewSched(free bool) *Sched {
	s := &Sched{free: free, pending: map[int][]*Call{}, crashed: map[int]bool{}, finished: map[int]bool{}}
	s.cond = sync.NewCond(&s.mu)
	return s
}

// enter blocks the calling goroutine until the call may proceed; false = the actor crashed.
func (s *Sched) enter(c *Call) bool {
	s.mu.Lock()
	if s.crashed[c.Actor] {
		s.mu.Unlock()
		return false
	}
	if s.free || s.finished[c.Actor] {
		if s.finished[c.Actor] {
			s.late++
		}
		s.mu.Unlock()
		return true
	}
	c.grant = make(chan bool, 1)
	s.pending[c.Actor] = append(s.pending[c.Actor], c)
	s.cond.Broadcast()
	s.mu.Unlock()
	return <-c.grant
}

func (s *Sched) leave(c *Call, res string, keys []string) {
	s.mu.Lock()
	c.Res, c.Keys = res, keys
	c.Seq = len(s.log)
	s.log = append(s.log, c)
	c.done = true
	s.cond.Broadcast()
	s.mu.Unlock()
}

// waitUntil waits for pred (evaluated under the lock) with a deadline.
func (s *Sched) waitUntil(timeout time.Duration, pred func() bool) bool {
	deadline := time.Now().Add(timeout)
	t := time.AfterFunc(timeout+time.Millisecond, func() { s.mu.Lock(); s.cond.Broadcast(); s.mu.Unlock() })
	defer t.Stop()
	s.mu.Lock()
	defer s.mu.Unlock()
	for !pred() {
		if time.Now().After(deadline) {
			return false
		}
		s.cond.Wait()
	}
	return true
}

// WaitActor waits until the actor has a pending call or its API call returned.
// ok = false means neither happened within the timeout (a hang).
func (s *Sched) WaitActor(actor int, timeout time.Duration) (finished bool, ok bool) {
	ok = s.waitUntil(timeout, func() bool { return len(s.pending[actor]) > 0 || s.finished[actor] })
	s.mu.Lock()
	// a finished actor with calls still pending (left-over goroutines): let the harness drain them first
	finished = s.finished[actor] && len(s.pending[actor]) == 0
	s.mu.Unlock()
	return finished, ok
}

// Pending returns the calls of the actor that wait for a release.
func (s *Sched) Pending(actor int) []*Call {
	s.mu.Lock()
	defer s.mu.Unlock()
	return append([]*Call(nil), s.pending[actor]...)
}

// Release lets one pending call proceed and waits until it has been executed.
func (s *Sched) Release(c *Call, timeout time.Duration) bool {
	s.mu.Lock()
	p := s.pending[c.Actor]
	for i := range p {
		if p[i] == c {
			s.pending[c.Actor] = append(p[:i:i], p[i+1:]...)
			break
		}
	}
	s.mu.Unlock()
	c.grant <- true
	return s.waitUntil(timeout, func() bool { return c.done })
}

// Crash makes every pending and further call of the actor fail.
func (s *Sched) Crash(actor int) {
	s.mu.Lock()
	s.crashed[actor] = true
	p := s.pending[actor]
	s.pending[actor] = nil
	s.cond.Broadcast()
	s.mu.Unlock()
	for _, c := range p {
		c.grant <- false
	}
}

// Crashed reports whether Crash was called for the actor.
func (s *Sched) Crashed(actor int) bool { s.mu.Lock(); defer s.mu.Unlock(); return s.crashed[actor] }

// Finish is called by the actor's goroutine when its API call has returned.
func (s *Sched) Finish(actor int) {
	s.mu.Lock()
	s.finished[actor] = true
	s.cond.Broadcast()
	s.mu.Unlock()
}

// WaitFinished waits until the API call of the actor has returned.
func (s *Sched) WaitFinished(actor int, timeout time.Duration) bool {
	return s.waitUntil(timeout, func() bool { return s.finished[actor] })
}

// SetFree switches to free mode and releases everything that is pending (end of a case: no
// goroutine may stay blocked).
func (s *Sched) SetFree() {
	s.mu.Lock()
	s.free = true
	var all []*Call
	for a, p := range s.pending {
		all = append(all, p...)
		s.pending[a] = nil
	}
	s.cond.Broadcast()
	s.mu.Unlock()
	for _, c := range all {
		c.grant <- true
	}
}

// CrashAll crashes every listed actor (used to wind a case down without further store effects).
func (s *Sched) CrashAll(actors []int) {
	for _, a := range actors {
		s.Crash(a)
	}
}

// Log returns the executed calls in execution order.
func (s *Sched) Log() []*Call {
	s.mu.Lock()
	defer s.mu.Unlock()
	return append([]*Call(nil), s.log...)
}

// Debug renders the scheduler state (hang diagnostics).
func (s *Sched) Debug() string {
	s.mu.Lock()
	defer s.mu.Unlock()
	out := fmt.Sprintf("free=%v log=%d late=%d", s.free, len(s.log), s.late)
	for a, p := range s.pending {
		for _, c := range p {
			out += fmt.Sprintf("\n  pending[%d]: actor=%d %s %s %s done=%v", a, c.Actor, c.Store, c.Op, c.Key, c.done)
		}
	}
	for a, v := range s.crashed {
		out += fmt.Sprintf("\n  crashed[%d]=%v", a, v)
	}
	for a, v := range s.finished {
		out += fmt.Sprintf("\n  finished[%d]=%v", a, v)
	}
	n := len(s.log)
	for i := n - 12; i < n; i++ {
		if i >= 0 {
			c := s.log[i]
			out += fmt.Sprintf("\n  log[%d]: actor=%d %s %s %s -> %s", i, c.Actor, c.Store, c.Op, c.Key, c.Res)
		}
	}
	return out
}

// Late is the number of calls issued by actors after their API call returned.
func (s *Sched) Late() int { s.mu.Lock(); defer s.mu.Unlock(); return s.late }

// Store is one actor's view of one shared store.
type Store struct {
	s     *Sched
	actor int
	name  string
	u     storage.Store
}

// Wrap returns the wrapper of actor `actor` around the shared store u (named name in the log).
func (s *Sched) Wrap(actor int, name string, u storage.Store) *Store {
	return &Store{s: s, actor: actor, name: name, u: u}
}

func (w *Store) String() string { return "c12store://" + w.name }

func class(err error) string {
	switch {
	case err == nil:
		return "ok"
	case errors.Is(err, status.ErrNotExists):
		return "notfound"
	case errors.Is(err, status.ErrExists):
		return "exists"
	default:
		return "err"
	}
}

// do runs one gated call.
func (w *Store) do(op, key string, f func() (string, []string)) bool {
	c := &Call{Actor: w.actor, Store: w.name, Op: op, Key: key}
	if j := w.s.Jitter; j != nil {
		j(w.actor)
	}
	if !w.s.enter(c) {
		return false
	}
	w.s.exec.Lock()
	defer w.s.exec.Unlock()
	// a crash may have been declared while this call waited for the store
	if w.s.Crashed(w.actor) {
		w.s.mu.Lock()
		c.done = true
		w.s.cond.Broadcast()
		w.s.mu.Unlock()
		return false
	}
	res, keys := f()
	w.s.leave(c, res, keys)
	if h := w.s.OnExec; h != nil {
		h(c)
	}
	return true
}

func (w *Store) Has(ctx context.Context, key string) (ok bool, err error) {
	if !w.do("has", key, func() (string, []string) {
		ok, err = w.u.Has(ctx, key)
		if err != nil {
			return "err", nil
		}
		if ok {
			return "true", nil
		}
		return "false", nil
	}) {
		return false, ErrCrashed
	}
	return
}

func (w *Store) Get(ctx context.Context, key string) (r io.ReadCloser, err error) {
	if !w.do("get", key, func() (string, []string) { r, err = w.u.Get(ctx, key); return class(err), nil }) {
		return nil, ErrCrashed
	}
	return
}

func (w *Store) GetAttr(ctx context.Context, key string) (a storage.Attributes, err error) {
	if !w.do("getattr", key, func() (string, []string) { a, err = w.u.GetAttr(ctx, key); return class(err), nil }) {
		return storage.Attributes{}, ErrCrashed
	}
	return
}

func (w *Store) GetAt(ctx context.Context, key string) (r io.ReaderAt, err error) {
	if !w.do("getat", key, func() (string, []string) { r, err = w.u.GetAt(ctx, key); return class(err), nil }) {
		return nil, ErrCrashed
	}
	return
}

func (w *Store) Touch(ctx context.Context, key string) (err error) {
	if !w.do("touch", key, func() (string, []string) { err = w.u.Touch(ctx, key); return class(err), nil }) {
		return ErrCrashed
	}
	return
}

func (w *Store) Put(ctx context.Context, key string, r io.Reader, noOverwrite bool) (err error) {
	// read the source BEFORE the gate: the reader may be fed by another goroutine of the same actor
	data, rerr := io.ReadAll(r)
	if rerr != nil {
		return rerr
	}
	op := "put"
	if noOverwrite {
		op = "putnx"
	}
	if !w.do(op, key, func() (string, []string) {
		err = w.u.Put(ctx, key, bytes.NewReader(data), noOverwrite)
		return class(err), nil
	}) {
		return ErrCrashed
	}
	return
}

// PutCRC implements storage.StoreCRC.
func (w *Store) PutCRC(ctx context.Context, key string, r io.Reader, noOverwrite bool, _ uint32) error {
	return w.Put(ctx, key, r, noOverwrite)
}

func (w *Store) Delete(ctx context.Context, key string) (err error) {
	if !w.do("delete", key, func() (string, []string) { err = w.u.Delete(ctx, key); return class(err), nil }) {
		return ErrCrashed
	}
	return
}

func (w *Store) Clear(ctx context.Context) (err error) {
	if !w.do("clear", "", func() (string, []string) { err = w.u.Clear(ctx); return class(err), nil }) {
		return ErrCrashed
	}
	return
}

func (w *Store) Keys(ctx context.Context) (ks []string, err error) {
	if !w.do("keys", "", func() (string, []string) { ks, err = w.u.Keys(ctx); return class(err), ks }) {
		return nil, ErrCrashed
	}
	return
}

func (w *Store) KeysPrefix(ctx context.Context, pageToken, prefix, delimiter string, count int) (ks []string, next string, err error) {
	if !w.do("keysprefix", prefix, func() (string, []string) {
		ks, next, err = w.u.KeysPrefix(ctx, pageToken, prefix, delimiter, count)
		return class(err), ks
	}) {
		return nil, "", ErrCrashed
	}
	return
}
