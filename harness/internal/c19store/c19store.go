// Package c19store wraps a storage.Store so that fetching chosen keys fails (C19: a WAL blob that
// cannot be fetched): either Get returns an error, or the reader it returns fails after a few bytes.
package c19store

import (
	"context"
	"errors"
	"io"
	"sync"

	"github.com/oneconcern/datamon/pkg/storage"
)

// Store is a storage.Store whose Get can be made to fail per key.
type Store struct {
	storage.Store
	mu     sync.Mutex
	fail   map[string]bool
	onRead bool
	all    bool
	gets   int
}

// Gets is the number of Get calls served so far.
func (f *Store) Gets() int { f.mu.Lock(); defer f.mu.Unlock(); return f.gets }

// SetFailAll makes every Get fail (or heals the store).
func (f *Store) SetFailAll(on bool) {
	f.mu.Lock()
	defer f.mu.Unlock()
	f.all = on
}

// New wraps s; nothing fails until SetFailing is called.
func New(s storage.Store) *Store { return &Store{Store: s, fail: map[string]bool{}} }

// SetFailing replaces the set of failing keys. With onRead the failure happens while the blob is
// read (Get itself succeeds), otherwise Get returns the error.
func (f *Store) SetFailing(onRead bool, keys ...string) {
	f.mu.Lock()
	defer f.mu.Unlock()
	f.fail = map[string]bool{}
	for _, k := range keys {
		f.fail[k] = true
	}
	f.onRead = onRead
}

type badReader struct{ n int }

func (b *badReader) Read(p []byte) (int, error) {
	if b.n > 0 && len(p) > 0 {
		b.n--
		p[0] = 'x'
		return 1, nil
	}
	return 0, errors.New("injected: connection reset while reading the blob")
}
func (b *badReader) Close() error { return nil }

func (f *Store) Get(ctx context.Context, key string) (io.ReadCloser, error) {
	f.mu.Lock()
	bad, onRead := f.fail[key], f.onRead
	f.gets++
	if f.all {
		bad, onRead = true, false
	}
	f.mu.Unlock()
	if bad && onRead {
		return &badReader{n: 3}, nil
	}
	if bad {
		return nil, errors.New("injected: blob cannot be fetched")
	}
	return f.Store.Get(ctx, key)
}
