#!/bin/sh
# Offline build of the framework: Lean theorems + model driver, Go harness, facts translator.
set -e
cd "$(dirname "$0")"
export GOFLAGS=-mod=mod GOPROXY=off GOSUMDB=off GOTOOLCHAIN=local
mkdir -p evidence replays harness/bin extract/bin
if [ -f extract/main.go ]; then
  (cd extract && go build -o bin/extract . && ./bin/extract -repo "${VERIF_REPO:-/repo}" -out ../lean/DatamonVerif/Generated/Facts.lean)
fi
lib/genroot.sh
(cd lean && lake build DatamonVerif dvdriver DatamonVerif.AuditTool)
cp "${VERIF_REPO:-/repo}/go.sum" harness/go.sum
(cd harness && go build -tags verif -o bin/dvh ./cmd/dvh)
echo setup-ok
